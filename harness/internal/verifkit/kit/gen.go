//go:build verif

package kit

import (
	"fmt"
	"regexp"
	"strings"
	"unicode"
	"unicode/utf8"

	"pgregory.net/rapid"
)

// G wraps a rapid.T with small helpers. Every random choice goes through
// rapid so that shrinking and replay work.
type G struct{ T *rapid.T }

// Int draws a size-like integer. rapid's IntRange favours small values,
// which is what we want for sizes (and for shrinking).
func (g G) Int(lo, hi int, label string) int { return rapid.IntRange(lo, hi).Draw(g.T, label) }

// U draws a (nearly) uniform integer in [0,n). rapid's integer generators are
// strongly biased towards small values, which distorts weighted choices; U
// assembles the number from fair boolean draws instead (all false = 0, so
// cases still shrink towards the first alternative).
func (g G) U(n int, label string) int {
	if n <= 1 {
		return 0
	}
	bits := 0
	for (1 << bits) < n {
		bits++
	}
	bits += 3 // keeps the modulo bias below 1/8 of a bucket
	x := 0
	for i := 0; i < bits; i++ {
		x <<= 1
		if rapid.Bool().Draw(g.T, label) {
			x |= 1
		}
	}
	return x % n
}

// Bool is true with probability pct/100.
func (g G) Bool(pct int, label string) bool { return g.U(100, label) >= 100-pct } // shrinks towards false

// Pick chooses uniformly.
func Pick[T any](g G, xs []T, label string) T { return xs[g.U(len(xs), label)] }

// Words is the vocabulary documents are assembled from. It is chosen so that
// queries hit: several cases, words that are prefixes / suffixes / overlaps of
// one another, punctuation-led tokens, multi-byte letters whose lower-casing
// and simple folding agree (no ſ ς K µ …; those belong to C08).
var Words = []string{
	"foo", "Foo", "FOO", "bar", "Bar", "baz", "foobar", "barfoo", "ab", "aba", "abab", "ababa", "aaa", "aaaa", "aa",
	"needle", "Needle", "NEEDLE", "need", "-x", "x-", "a-a", ".foo", "x_y", "_x", "func", "main", "if", "x", "y", "z",
	"été", "ÉTÉ", "Été", "é", "straße", "λογ", "ΛΟΓ", "日本語", "日本", "😀", "naïve", "Go", "go", "GO", "import",
	"return", "err", "nil", "Test", "test", "TODO", "0", "42", "foo.bar", "a.b", "q",
	"a[i]", "m{k}", "x@y", "p|q", "a^b", "~x", "c*d", "`q`", "a\\b",
}

// asciiWords / asciiNames: the ASCII part of the vocabulary, for repositories
// whose shard is plain ASCII (the index keeps a flag for that).
var asciiWords, asciiNames = onlyASCII(Words), onlyASCII(fileNames)

func onlyASCII(xs []string) []string {
	var out []string
	for _, x := range xs {
		ok := true
		for i := 0; i < len(x); i++ {
			ok = ok && x[i] < 0x80
		}
		if ok {
			out = append(out, x)
		}
	}
	return out
}

var Seps = []string{" ", " ", " ", "\n", "\n", "\t", "\n\n", "\r\n", "", "(", ")", ".", ", ", ";", "  ", ":", "="}

var fileNames = []string{
	"main.go", "foo.go", "foo/bar.go", "foo/foo.go", "README.md", "a-a.txt", "été.txt", "日本.txt", "lib/foo_test.py",
	"lib/util.py", "x", "Makefile", "docs/Foo.md", "src/needle.c", "src/Needle.h", "aba/abab.go", "test/x_test.go",
	"a.b", ".foo", "foo bar.txt", "BAR.TXT",
}

var langByExt = map[string]string{".go": "Go", ".py": "Python", ".md": "Markdown", ".txt": "Text", ".c": "C", ".h": "C"}

func langFor(name string) string {
	if i := strings.LastIndex(name, "."); i >= 0 {
		if l, ok := langByExt[name[i:]]; ok {
			return l
		}
	}
	return "Text"
}

var repoNames = []string{"github.com/a/foo", "github.com/a/bar", "gitlab.com/b/foo", "r1", "github.com/c/needle", "example.org/été"}

// some names contain others (dev / dev-old, release / release/2): substring vs exact matters
var branchPool = []string{"dev", "release", "feature/x", "v1.0", "dev-old", "release/2"}
var symKinds = []string{"function", "class", "variable", "method", ""}

// CorpusOpts steers the corpus generator.
type CorpusOpts struct {
	MaxRepos, MaxDocs, MaxTokens int
	Compound                     int  // percent of corpora that are compound
	Tombstones                   bool // repository / file tombstones
	Skips                        bool // skipped documents
	Symbols                      bool
	SubRepos                     bool
	Tenants                      int // 0 = no tenant ids; else ids in 1..Tenants (and 0)
	LongLines                    bool
	ForceCompound                *bool
	NoTwins                      bool // no near-miss documents (addTwin)
}

var DefaultCorpus = CorpusOpts{MaxRepos: 4, MaxDocs: 8, MaxTokens: 30, Compound: 35, Tombstones: true, Skips: true, Symbols: true, SubRepos: true, LongLines: true}

// GenContent assembles a document from vocabulary tokens and returns the
// content and the [start,end) of each word token.
func GenContent(g G, maxTokens int, longLines bool) ([]byte, [][2]int) {
	return GenContentFrom(g, Words, maxTokens, longLines)
}

// GenContentFrom is GenContent over a given vocabulary.
func GenContentFrom(g G, Words []string, maxTokens int, longLines bool) ([]byte, [][2]int) {
	n := g.Int(0, maxTokens, "ntok")
	var sb strings.Builder
	var toks [][2]int
	for i := 0; i < n; i++ {
		w := Pick(g, Words, "w")
		st := sb.Len()
		sb.WriteString(w)
		toks = append(toks, [2]int{st, sb.Len()})
		if i < n-1 {
			sb.WriteString(Pick(g, Seps, "sep"))
		}
	}
	if longLines && g.Bool(8, "long") {
		// a long line with a multi-byte rune around the 100-rune sampling boundary
		k := g.Int(95, 105, "longk")
		sb.WriteString("\n" + strings.Repeat("a", k) + "é" + strings.Repeat("b", g.Int(0, 110, "longk2")) + " needle")
	}
	switch g.Int(0, 3, "tail") {
	case 0:
	case 1, 2:
		if n > 0 {
			sb.WriteString("\n")
		}
	case 3:
		sb.WriteString("\n\n")
	}
	return []byte(sb.String()), toks
}

func GenRepo(g G, o CorpusOpts, idx int, name string) Repo {
	r := Repo{Name: name, ID: uint32(idx + 1)}
	first := Pick(g, []string{"HEAD", "HEAD", "main"}, "b0")
	r.Branches = []Branch{{first, fmt.Sprintf("v%d-0", idx)}}
	nb := g.Int(0, 3, "nbranch")
	for i := 0; i < nb && i < len(branchPool); i++ {
		r.Branches = append(r.Branches, Branch{branchPool[(idx+i)%len(branchPool)], fmt.Sprintf("v%d-%d", idx, i+1)})
	}
	if g.Bool(50, "rc") {
		r.RawConfig = map[string]string{}
		for _, k := range []string{"public", "fork", "archived"} {
			switch g.Int(0, 2, "rcv") {
			case 0:
				r.RawConfig[k] = "1"
			case 1:
				r.RawConfig[k] = "0"
			}
		}
		if g.Bool(30, "prio") {
			r.RawConfig["priority"] = fmt.Sprint(g.Int(0, 50, "priov"))
		}
	}
	if g.Bool(50, "md") {
		r.Metadata = map[string]string{}
		if g.Bool(70, "md1") {
			r.Metadata["team"] = Pick(g, []string{"alpha", "beta", "alphabet"}, "team")
		}
		if g.Bool(40, "md2") {
			r.Metadata["lang"] = Pick(g, []string{"go", "py"}, "mdlang")
		}
	}
	r.Rank = uint16(g.Int(0, 3, "rank") * 1000)
	if o.Tenants > 0 {
		r.TenantID = g.Int(0, o.Tenants, "tenant")
	}
	r.FileURL = "http://" + name + "/blob/{{.Version}}/{{.Path}}"
	r.LineFragment = "#L{{.LineNumber}}"
	if o.SubRepos && g.Bool(15, "sub") {
		r.SubRepos = []string{"vendor/sub"}
	}
	nd := g.Int(1, o.MaxDocs, "ndocs")
	used := map[string][]int{} // name -> doc indexes
	words, names := Words, fileNames
	if g.Bool(12, "asciirepo") {
		// a repository (hence a simple shard) of plain ASCII text
		words, names = asciiWords, asciiNames
		o.LongLines = false
	}
	for i := 0; i < nd; i++ {
		d := Doc{Name: Pick(g, names, "fname")}
		if len(r.SubRepos) > 0 && g.Bool(30, "insub") {
			d.SubRepo = r.SubRepos[0]
			d.Name = d.SubRepo + "/" + d.Name
		}
		content, toks := GenContentFrom(g, words, o.MaxTokens, o.LongLines)
		d.Content = content
		d.Language = langFor(d.Name)
		if o.Skips && g.Bool(6, "skip") {
			d.Skip = g.Int(1, 4, "skipwhy")
		}
		// branches: non-empty subset; same-named documents get disjoint
		// branch sets and distinct contents (that is what distinct blobs are)
		taken := map[string]bool{}
		for _, j := range used[d.Name] {
			for _, b := range r.Docs[j].Branches {
				taken[b] = true
			}
		}
		var free []string
		for _, b := range r.Branches {
			if !taken[b.Name] {
				free = append(free, b.Name)
			}
		}
		dup := false
		for _, j := range used[d.Name] {
			if string(r.Docs[j].EffectiveContent()) == string(d.EffectiveContent()) {
				dup = true
			}
		}
		if len(free) == 0 || dup {
			continue
		}
		for _, b := range free {
			if g.Bool(60, "onbranch") {
				d.Branches = append(d.Branches, b)
			}
		}
		if len(d.Branches) == 0 {
			d.Branches = []string{free[0]}
		}
		if o.Symbols && d.Skip == 0 && len(toks) > 0 && g.Bool(50, "syms") {
			for _, tk := range toks {
				if g.Bool(30, "sym") {
					d.Symbols = append(d.Symbols, Sym{Start: tk[0], End: tk[1], Kind: Pick(g, symKinds, "kind"), Parent: Pick(g, []string{"", "P"}, "parent")})
				}
			}
		}
		used[d.Name] = append(used[d.Name], len(r.Docs))
		r.Docs = append(r.Docs, d)
	}
	if o.Tombstones {
		r.Tombstone = g.Bool(15, "tomb")
		if len(r.Docs) > 0 && g.Bool(12, "ftomb") {
			r.FileTombstones = []string{Pick(g, r.Docs, "ftombdoc").Name}
		}
	}
	return r
}

func GenCorpus(g G, o CorpusOpts) Corpus {
	var c Corpus
	n := g.Int(1, o.MaxRepos, "nrepos")
	for i := 0; i < n && i < len(repoNames); i++ {
		c.Repos = append(c.Repos, GenRepo(g, o, i, repoNames[i]))
	}
	if o.ForceCompound != nil {
		c.Compound = *o.ForceCompound
	} else {
		c.Compound = g.Bool(o.Compound, "compound")
	}
	if !o.NoTwins && g.Bool(25, "twin") {
		addTwin(g, &c)
	}
	return c
}

// partner20 maps ASCII bytes that are not letters to the byte differing in
// bit 0x20 only, where that is again a byte that can occur in text.
var partner20 = map[byte]byte{'[': '{', '{': '[', ']': '}', '}': ']', '@': '`', '`': '@', '^': '~', '~': '^', '|': '\\', '\\': '|',
	'*': '\n', '\n': '*', ')': '\t', '\t': ')'}

// addTwin adds a near miss to the corpus: a copy of one document that differs
// in a single ASCII byte, plus a document repeating the few bytes around that
// position in both variants so that the trigrams containing the changed byte
// are frequent (the index picks the rarest trigrams of a pattern to find
// candidates; with these documents the candidates include the near miss, and
// only comparing every byte tells the two apart). The text around the position
// is remembered in c.Hot for the pattern generator.
func addTwin(g G, c *Corpus) {
	r := &c.Repos[g.U(len(c.Repos), "twrepo")]
	if len(r.Docs) == 0 {
		return
	}
	di := g.U(len(r.Docs), "twdoc")
	d := r.Docs[di]
	b := []byte(d.Content)
	if d.Skip != 0 || len(b) < 9 {
		return
	}
	var punct, other []int
	for i := 3; i+3 < len(b); i++ {
		ascii := true
		for j := i - 2; j <= i+2; j++ {
			ascii = ascii && b[j] < 0x80
		}
		if !ascii {
			continue
		}
		if _, ok := partner20[b[i]]; ok {
			punct = append(punct, i)
		} else if b[i] >= 'a' && b[i] < 'z' || b[i] >= '0' && b[i] < '9' {
			other = append(other, i)
		}
	}
	pos := punct
	if len(pos) == 0 || (len(other) > 0 && g.Bool(30, "twletter")) {
		pos = other
	}
	if len(pos) == 0 {
		return
	}
	i := pos[g.U(len(pos), "twpos")]
	tw := append([]byte(nil), b...)
	if p, ok := partner20[b[i]]; ok {
		tw[i] = p
	} else {
		tw[i] = b[i] + 1
	}
	for _, x := range r.Docs {
		if x.Name == d.Name+".twin" {
			return
		}
	}
	twin := Doc{Name: d.Name + ".twin", Content: Text(tw), Branches: append([]string(nil), d.Branches...), Language: d.Language, SubRepo: d.SubRepo}
	noise := Doc{Name: d.Name + ".noise", Branches: append([]string(nil), d.Branches...), Language: d.Language, SubRepo: d.SubRepo,
		Content: Text(strings.Repeat(string(b[i-2:i+3])+" ", 4) + strings.Repeat(string(tw[i-2:i+3])+" ", 4) + "\n")}
	r.Docs = append(r.Docs, twin, noise)
	lo, hi := max(0, i-g.Int(3, 8, "twlo")), min(len(b), i+1+g.Int(3, 8, "twhi"))
	for lo > 0 && !utf8.RuneStart(b[lo]) {
		lo--
	}
	for hi < len(b) && !utf8.RuneStart(b[hi]) {
		hi++
	}
	c.Hot = append(c.Hot, string(b[lo:hi]), string(tw[lo:hi]))
}

// ---- queries ----

// substringOf draws a substring (whole runes) of s with 1..maxRunes runes.
func substringOf(g G, s string, maxRunes int) string {
	rs := []rune(s)
	if len(rs) == 0 {
		return ""
	}
	n := g.Int(1, min(maxRunes, len(rs)), "sublen")
	st := g.Int(0, len(rs)-n, "substart")
	return string(rs[st : st+n])
}

func mutateRune(g G, s string) string {
	rs := []rune(s)
	if len(rs) == 0 {
		return "z"
	}
	i := g.Int(0, len(rs)-1, "muti")
	switch g.Int(0, 2, "mutk") {
	case 0:
		rs[i] = Pick(g, []rune("abxzAé日 \n-"), "mutr")
	case 1:
		rs = append(rs[:i], rs[i+1:]...)
	case 2:
		rs = append(rs[:i], append([]rune{Pick(g, []rune("abxz_"), "mutr")}, rs[i:]...)...)
	}
	return string(rs)
}

// GenPattern draws a literal pattern aimed at the corpus.
func GenPattern(g G, c *Corpus, fromName bool) string {
	pickText := func() string {
		r := &c.Repos[g.Int(0, len(c.Repos)-1, "prepo")]
		if len(r.Docs) == 0 {
			return Pick(g, Words, "pw")
		}
		d := &r.Docs[g.Int(0, len(r.Docs)-1, "pdoc")]
		if fromName {
			return d.Name
		}
		s := string(d.EffectiveContent())
		if s == "" {
			return Pick(g, Words, "pw")
		}
		return s
	}
	if len(c.Hot) > 0 && !fromName && g.Bool(25, "hot") {
		return Pick(g, c.Hot, "hotpat")
	}
	k := g.Int(0, 9, "patkind")
	switch {
	case k < 5:
		return substringOf(g, pickText(), 12)
	case k < 7:
		return mutateRune(g, substringOf(g, pickText(), 8))
	case k < 9:
		return Pick(g, Words, "pw")
	default:
		n := g.Int(1, 5, "freelen")
		var sb strings.Builder
		for i := 0; i < n; i++ {
			sb.WriteRune(Pick(g, []rune("abfoxAB é\n.-"), "free"))
		}
		return sb.String()
	}
}

// changeCase randomly changes the case of ASCII letters / é / λ so that
// case-insensitive atoms are exercised on non-identical text.
func changeCase(g G, s string) string {
	if !g.Bool(40, "chcase") {
		return s
	}
	switch g.Int(0, 2, "casehow") {
	case 0:
		return strings.ToUpper(s)
	case 1:
		return strings.ToLower(s)
	}
	rs := []rune(s)
	for i := range rs {
		if g.Bool(50, "flip") {
			u := []rune(strings.ToUpper(string(rs[i])))
			l := []rune(strings.ToLower(string(rs[i])))
			if len(u) == 1 && len(l) == 1 {
				if rs[i] == u[0] {
					rs[i] = l[0]
				} else {
					rs[i] = u[0]
				}
			}
		}
	}
	return string(rs)
}

// caseSafe reports whether every rune of s is in the C01 case-insensitive
// domain: lower-casing and simple folding agree on its whole fold orbit.
func CaseSafe(s string) bool {
	for _, r := range s {
		if r == utf8.RuneError {
			return false
		}
		orbit := []rune{r}
		for x := unicode.SimpleFold(r); x != r; x = unicode.SimpleFold(x) {
			orbit = append(orbit, x)
		}
		l := unicode.ToLower(orbit[0])
		for _, x := range orbit {
			if unicode.ToLower(x) != l {
				return false
			}
		}
	}
	return true
}

// GenRegexpText draws a regexp in the query syntax aimed at the corpus and
// returns it with the labels of the shapes used.
func GenRegexpText(g G, c *Corpus, fromName bool, allowAssert bool) (string, []string) {
	lit := func() string {
		p := GenPattern(g, c, fromName)
		p = strings.ReplaceAll(p, "\r", "")
		if g.Bool(25, "litcase") {
			p = changeCase(g, p)
		}
		return regexp.QuoteMeta(p)
	}
	word := func() string { return regexp.QuoteMeta(Pick(g, Words, "rw")) }
	k := g.U(18, "rekind")
	if !allowAssert && (k == 3 || k == 6 || k == 7) {
		k = 1
	}
	switch k {
	case 0:
		return lit(), []string{"re:literal"}
	case 1:
		glue := Pick(g, []string{".*", `\s*`, "[a-z]+", `\n`, ".", `\w+`, " ?", `\s+`, `.*\n.*`, `[^x]*`, `(?s:.*)`, `(.|\n)*`, `[\s\S]*`}, "glue")
		return lit() + glue + lit(), []string{"re:concat"}
	case 2:
		n := g.Int(2, 4, "nalt")
		var alts []string
		base := word()
		for i := 0; i < n; i++ {
			switch g.Int(0, 3, "altk") {
			case 0:
				alts = append(alts, base+word()) // common prefix
			case 1:
				alts = append(alts, regexp.QuoteMeta(changeCase(g, Pick(g, Words, "aw"))))
			default:
				alts = append(alts, lit())
			}
		}
		s := strings.Join(alts, "|")
		if g.Bool(50, "altgrp") {
			s = "(" + s + ")"
		}
		return s, []string{"re:alt"}
	case 3:
		w := Pick(g, []string{"foo", "bar", "x", "aba", "ab", "-x", "x-", "a-a", ".foo", "_x", "needle", "é", "été", "Go", "日本", "if", "q", "42"}, "bw")
		return `\b` + regexp.QuoteMeta(w) + `\b`, []string{"re:word"}
	case 4:
		return word() + Pick(g, []string{"+", "?", "*", "{1,}", "{2,}", "{2}"}, "rep"), []string{"re:repeat"}
	case 5:
		return "(" + word() + ")" + Pick(g, []string{"+", "?", "*", "{2,3}"}, "rep") + lit(), []string{"re:grouprepeat"}
	case 6:
		return "^" + lit(), []string{"re:bol"}
	case 7:
		return lit() + "$", []string{"re:eol"}
	case 8:
		return "(?i:" + word() + ")" + lit(), []string{"re:foldgroup"}
	case 9:
		return Pick(g, []string{"[a-c]", "[^a]", `\d`, "[A-Z]", `\w`, `[é日]`, `\S`}, "cls") + lit(), []string{"re:class"}
	case 10:
		return "(" + lit() + ")(" + word() + ")?", []string{"re:capture"}
	case 11:
		return Pick(g, []string{"x*", "(foo)?", ".*", `\s*`, "a*b*"}, "empty"), []string{"re:emptyok"}
	case 12:
		return lit() + `\n` + lit(), []string{"re:newline"}
	case 13:
		// alternatives that are case variants / extensions of one another
		w := Pick(g, []string{"foo", "bar", "aba", "needle", "été", "Go"}, "cvw")
		a := regexp.QuoteMeta(changeCase(g, w))
		b := regexp.QuoteMeta(changeCase(g, w) + Pick(g, []string{" ", "", "b", "\n", "foo"}, "cvx"))
		if g.Bool(50, "cvorder") {
			a, b = b, a
		}
		return a + "|" + b, []string{"re:alt-casevariants"}
	case 14:
		// two words of one line of a document, in order: lit1.*lit2 with a true
		// same-line match (the andLineMatchTree shortcut), often far into a
		// document with multi-byte text before it
		if s, ok := sameLinePair(g, c); ok {
			return s, []string{"re:sameline"}
		}
		return lit() + ".*" + lit(), []string{"re:concat"}
	case 16, 17:
		// two words of different lines of one document, in order, joined by a
		// star that does (or, for plain .*, does not) cross line ends
		if a, b, ok := crossLinePair(g, c); ok {
			switch g.U(6, "dotall") {
			case 0:
				return "(?s)" + a + ".*" + b, []string{"re:dotall"}
			case 1:
				return a + "(?s:.*)" + b, []string{"re:dotall"}
			case 2:
				return a + `(.|\n)*` + b, []string{"re:dotall"}
			case 3:
				return a + `[\s\S]*` + b, []string{"re:dotall"}
			case 4:
				return a + `(?s:.)*` + b + "(?s:.*)" + b, []string{"re:dotall"}
			default:
				return a + ".*" + b, []string{"re:crossline-plain"}
			}
		}
		return lit() + "(?s:.*)" + lit(), []string{"re:dotall"}
	default:
		return lit() + ".*" + lit() + ".*" + lit(), []string{"re:concat3"}
	}
}

// crossLinePair picks two words of at least three runes from two different
// lines (in order) of some document.
func crossLinePair(g G, c *Corpus) (string, string, bool) {
	for try := 0; try < 4; try++ {
		r := &c.Repos[g.U(len(c.Repos), "clrepo")]
		if len(r.Docs) == 0 {
			continue
		}
		d := &r.Docs[g.U(len(r.Docs), "cldoc")]
		lines := strings.Split(string(d.EffectiveContent()), "\n")
		var ws [][]string
		for _, l := range lines {
			var w []string
			for _, x := range strings.FieldsFunc(l, func(r rune) bool { return r == ' ' || r == '\t' || r == '\r' }) {
				if utf8.RuneCountInString(x) >= 3 {
					w = append(w, x)
				}
			}
			ws = append(ws, w)
		}
		var have []int
		for i, w := range ws {
			if len(w) > 0 {
				have = append(have, i)
			}
		}
		if len(have) < 2 {
			continue
		}
		i := g.U(len(have)-1, "cll1")
		j := i + 1 + g.U(len(have)-i-1, "cll2")
		return regexp.QuoteMeta(Pick(g, ws[have[i]], "clw1")), regexp.QuoteMeta(Pick(g, ws[have[j]], "clw2")), true
	}
	return "", "", false
}

// sameLinePair picks a line of some document that holds two words of at
// least three runes and returns `w1.*w2`.
func sameLinePair(g G, c *Corpus) (string, bool) {
	for try := 0; try < 4; try++ {
		r := &c.Repos[g.U(len(c.Repos), "slrepo")]
		if len(r.Docs) == 0 {
			continue
		}
		d := &r.Docs[g.U(len(r.Docs), "sldoc")]
		lines := strings.Split(string(d.EffectiveContent()), "\n")
		// prefer late lines
		start := g.U(len(lines), "slline")
		for li := start; li < len(lines); li++ {
			var ws []string
			for _, w := range strings.FieldsFunc(lines[li], func(r rune) bool {
				return r == ' ' || r == '\t' || r == '\r' || r == '(' || r == ')' || r == ';' || r == ',' || r == '=' || r == ':'
			}) {
				if utf8.RuneCountInString(w) >= 3 {
					ws = append(ws, w)
				}
			}
			if len(ws) >= 2 {
				i := g.U(len(ws)-1, "slw")
				return regexp.QuoteMeta(ws[i]) + ".*" + regexp.QuoteMeta(ws[i+1+g.U(len(ws)-i-1, "slw2")]), true
			}
		}
	}
	return "", false
}

// QueryOpts steers the query generator.
type QueryOpts struct {
	MaxDepth   int
	RepoAtoms  bool // repo / reposet / repoids / branchesrepos / meta / rawconfig
	TypeBoost  bool // Type(filename) and Boost wrappers
	Symbols    bool
	FoldSafe   bool // restrict case-insensitive text atoms to the C01 domain
	NoAssert   bool
	ConstAtoms bool
}

var DefaultQuery = QueryOpts{MaxDepth: 3, RepoAtoms: true, TypeBoost: true, Symbols: true, FoldSafe: true}

func genTextAtom(g G, c *Corpus, o QueryOpts) (QSpec, []string) {
	var labels []string
	fileOnly := g.Bool(25, "fileatom")
	contentOnly := !fileOnly && g.Bool(60, "contentatom")
	q := QSpec{File: fileOnly, Content: contentOnly}
	q.CS = g.Bool(50, "cs")
	if g.Bool(50, "isregex") {
		q.Op = "regex"
		var l []string
		q.Pat, l = GenRegexpText(g, c, fileOnly, !o.NoAssert)
		labels = append(labels, l...)
		q.Opt = g.Bool(50, "opt")
	} else {
		q.Op = "substr"
		q.Pat = GenPattern(g, c, fileOnly)
		if !q.CS {
			q.Pat = changeCase(g, q.Pat)
		}
		if utf8.RuneCountInString(q.Pat) < 3 {
			labels = append(labels, "substr:short")
		} else {
			labels = append(labels, "substr:ngram")
		}
	}
	if !q.CS {
		labels = append(labels, "fold")
		if o.FoldSafe && !CaseSafe(q.Pat) {
			q.CS = true
		}
	}
	return q, labels
}

func genAtom(g G, c *Corpus, o QueryOpts) (QSpec, []string) {
	k := g.Int(0, 99, "atomkind")
	r := &c.Repos[g.Int(0, len(c.Repos)-1, "arepo")]
	switch {
	case k < 55:
		return genTextAtom(g, c, o)
	case k < 63 && o.Symbols:
		a, l := genTextAtom(g, c, QueryOpts{FoldSafe: o.FoldSafe, NoAssert: o.NoAssert})
		a.File, a.Content = false, false
		if a.Op == "substr" && a.Pat == "" {
			a.Pat = "foo"
		}
		return QSpec{Op: "sym", Kids: []QSpec{a}}, append(l, "sym")
	case k < 68:
		return QSpec{Op: "lang", Pat: Pick(g, []string{"Go", "Python", "Markdown", "Text", "C", "Rust"}, "lang")}, []string{"lang"}
	case k < 76:
		pat := Pick(g, []string{"HEAD", "main", "dev", "release", "feature/x", "v1.0", "e", "", "nope", "feature", "dev-old", "release/2"}, "bpat")
		exact := g.Bool(50, "bexact")
		return QSpec{Op: "branch", Pat: pat, Exact: exact}, []string{"branch"}
	case k < 80 && o.ConstAtoms:
		return QSpec{Op: "const", Val: g.Bool(50, "constv")}, []string{"const"}
	case k < 84:
		var names []string
		for i := range c.Repos {
			for j := range c.Repos[i].Docs {
				if g.Bool(25, "fns") {
					names = append(names, c.Repos[i].Docs[j].Name)
				}
			}
		}
		if g.Bool(20, "fnsx") {
			names = append(names, "nope.txt")
		}
		return QSpec{Op: "filenameset", Strs: names}, []string{"filenameset"}
	}
	if !o.RepoAtoms {
		return genTextAtom(g, c, o)
	}
	switch g.Int(0, 6, "repoatom") {
	case 0:
		return QSpec{Op: "repo", Pat: Pick(g, []string{"foo", "github", "^r1$", "a/", "bar|needle", "nope", "(?i)FOO", "été"}, "repopat")}, []string{"repo"}
	case 1:
		return QSpec{Op: "reporegex", Pat: Pick(g, []string{"foo$", "^github\\.com/a/", "r1|gitlab", "nope", "."}, "rrpat")}, []string{"reporegex"}
	case 2:
		var names []string
		for i := range c.Repos {
			if g.Bool(50, "rs") {
				names = append(names, c.Repos[i].Name)
			}
		}
		if g.Bool(20, "rsx") {
			names = append(names, "nope")
		}
		return QSpec{Op: "reposet", Strs: names}, []string{"reposet"}
	case 3:
		var ids []uint32
		for i := range c.Repos {
			if g.Bool(50, "ri") {
				ids = append(ids, c.Repos[i].ID)
			}
		}
		if g.Bool(20, "rix") {
			ids = append(ids, 999)
		}
		return QSpec{Op: "repoids", IDs: ids}, []string{"repoids"}
	case 4:
		n := g.Int(1, 3, "nbr")
		q := QSpec{Op: "branchesrepos"}
		for i := 0; i < n; i++ {
			rr := &c.Repos[g.Int(0, len(c.Repos)-1, "brrepo")]
			b := Pick(g, rr.Branches, "brb").Name
			if g.Bool(10, "brnope") {
				b = "nope"
			} else if g.Bool(15, "brhead") {
				b = "HEAD"
			}
			ids := []uint32{rr.ID}
			if g.Bool(30, "brmore") {
				ids = append(ids, r.ID)
			}
			q.BR = append(q.BR, BRSpec{Branch: b, IDs: ids})
		}
		return q, []string{"branchesrepos"}
	case 5:
		return QSpec{Op: "meta", Field: Pick(g, []string{"team", "lang", "nope"}, "mf"), Pat: Pick(g, []string{"alpha", "^alpha$", "beta", "go", ".", "nope", "(?i)ALPHA", ".*", "^$", "a*", "(alpha)?"}, "mv")}, []string{"meta"}
	default:
		bits := []int{0, 1, 2}[g.Int(0, 2, "rc1")] | []int{0, 4, 8}[g.Int(0, 2, "rc2")] | []int{0, 16, 32}[g.Int(0, 2, "rc3")]
		return QSpec{Op: "rawconfig", Num: float64(bits)}, []string{"rawconfig"}
	}
}

// GenQuery draws a query tree aimed at the corpus.
func GenQuery(g G, c *Corpus, o QueryOpts, depth int) (QSpec, []string) {
	if depth >= o.MaxDepth || g.Bool(45, "leaf") {
		return genAtom(g, c, o)
	}
	k := g.Int(0, 9, "node")
	switch {
	case k < 4:
		n := g.Int(2, 3, "nand")
		q := QSpec{Op: "and"}
		var labels []string
		for i := 0; i < n; i++ {
			kq, l := GenQuery(g, c, o, depth+1)
			q.Kids = append(q.Kids, kq)
			labels = append(labels, l...)
		}
		return q, append(labels, "and")
	case k < 7:
		n := g.Int(2, 3, "nor")
		q := QSpec{Op: "or"}
		var labels []string
		for i := 0; i < n; i++ {
			kq, l := GenQuery(g, c, o, depth+1)
			q.Kids = append(q.Kids, kq)
			labels = append(labels, l...)
		}
		return q, append(labels, "or")
	case k < 9:
		kq, l := GenQuery(g, c, o, depth+1)
		return QSpec{Op: "not", Kids: []QSpec{kq}}, append(l, "not")
	default:
		kq, l := GenQuery(g, c, o, depth+1)
		if !o.TypeBoost {
			return kq, l
		}
		if g.Bool(50, "boost") {
			return QSpec{Op: "boost", Num: Pick(g, []float64{0.01, 0.5, 2, 20, 100}, "boostv"), Kids: []QSpec{kq}}, append(l, "boost")
		}
		return QSpec{Op: "type", Num: 1, Kids: []QSpec{kq}}, append(l, "type:filename")
	}
}
