//go:build verif

package kit

import (
	"fmt"
	"regexp/syntax"
	"sort"

	"github.com/RoaringBitmap/roaring/v2"
	"github.com/grafana/regexp"

	"github.com/sourcegraph/zoekt/query"
)

// RegexpFlags mirrors query.regexpFlags (unexported there).
const RegexpFlags syntax.Flags = syntax.ClassNL | syntax.PerlX | syntax.UnicodeGroups

// QSpec is the JSON form of a query tree (replay files hold these).
type QSpec struct {
	Op      string   `json:"op"`
	Pat     string   `json:"pat,omitempty"`
	CS      bool     `json:"cs,omitempty"`
	File    bool     `json:"file,omitempty"`
	Content bool     `json:"content,omitempty"`
	Exact   bool     `json:"exact,omitempty"`
	Val     bool     `json:"val,omitempty"`
	Opt     bool     `json:"opt,omitempty"` // apply query.OptimizeRegexp like the parser does
	Num     float64  `json:"num,omitempty"`
	Strs    []string `json:"strs,omitempty"`
	IDs     []uint32 `json:"ids,omitempty"`
	Field   string   `json:"field,omitempty"`
	BR      []BRSpec `json:"br,omitempty"`
	Kids    []QSpec  `json:"kids,omitempty"`
}

type BRSpec struct {
	Branch string   `json:"branch"`
	IDs    []uint32 `json:"ids"`
}

func (s QSpec) Q() (query.Q, error) {
	kids := func() ([]query.Q, error) {
		var out []query.Q
		for _, k := range s.Kids {
			q, err := k.Q()
			if err != nil {
				return nil, err
			}
			out = append(out, q)
		}
		return out, nil
	}
	one := func() (query.Q, error) {
		if len(s.Kids) != 1 {
			return nil, fmt.Errorf("qspec %s: want 1 child", s.Op)
		}
		return s.Kids[0].Q()
	}
	switch s.Op {
	case "and":
		k, err := kids()
		return &query.And{Children: k}, err
	case "or":
		k, err := kids()
		return &query.Or{Children: k}, err
	case "not":
		c, err := one()
		return &query.Not{Child: c}, err
	case "const":
		return &query.Const{Value: s.Val}, nil
	case "boost":
		c, err := one()
		return &query.Boost{Child: c, Boost: s.Num}, err
	case "type":
		c, err := one()
		return &query.Type{Child: c, Type: uint8(s.Num)}, err
	case "substr":
		return &query.Substring{Pattern: s.Pat, CaseSensitive: s.CS, FileName: s.File, Content: s.Content}, nil
	case "regex":
		re, err := syntax.Parse(s.Pat, RegexpFlags)
		if err != nil {
			return nil, err
		}
		if s.Opt {
			re = query.OptimizeRegexp(re, RegexpFlags)
		}
		return &query.Regexp{Regexp: re, CaseSensitive: s.CS, FileName: s.File, Content: s.Content}, nil
	case "sym":
		c, err := one()
		return &query.Symbol{Expr: c}, err
	case "lang":
		return &query.Language{Language: s.Pat}, nil
	case "branch":
		return &query.Branch{Pattern: s.Pat, Exact: s.Exact}, nil
	case "repo":
		re, err := regexp.Compile(s.Pat)
		return &query.Repo{Regexp: re}, err
	case "reporegex":
		re, err := regexp.Compile(s.Pat)
		return &query.RepoRegexp{Regexp: re}, err
	case "reposet":
		return query.NewRepoSet(s.Strs...), nil
	case "repoids":
		return query.NewRepoIDs(s.IDs...), nil
	case "branchesrepos":
		br := &query.BranchesRepos{}
		for _, b := range s.BR {
			br.List = append(br.List, query.BranchRepos{Branch: b.Branch, Repos: roaring.BitmapOf(b.IDs...)})
		}
		return br, nil
	case "filenameset":
		return query.NewFileNameSet(s.Strs...), nil
	case "meta":
		re, err := regexp.Compile(s.Pat)
		return &query.Meta{Field: s.Field, Value: re}, err
	case "rawconfig":
		return query.RawConfig(uint64(s.Num)), nil
	}
	return nil, fmt.Errorf("qspec: unknown op %q", s.Op)
}

// Atoms calls f for every leaf of the tree.
func (s QSpec) Atoms(f func(QSpec)) {
	if len(s.Kids) == 0 {
		f(s)
		return
	}
	if s.Op == "sym" {
		f(s)
		return
	}
	for _, k := range s.Kids {
		k.Atoms(f)
	}
}

func (s QSpec) Ops() []string {
	m := map[string]bool{}
	var walk func(QSpec)
	walk = func(x QSpec) {
		m[x.Op] = true
		for _, k := range x.Kids {
			walk(k)
		}
	}
	walk(s)
	out := make([]string, 0, len(m))
	for k := range m {
		out = append(out, k)
	}
	sort.Strings(out)
	return out
}
