//go:build verif

package kit

import (
	"bytes"
	"encoding/base64"
	"encoding/json"
	"fmt"
	"os"
	"path/filepath"
	"sort"
	"unicode/utf8"

	"github.com/sourcegraph/zoekt"
	"github.com/sourcegraph/zoekt/index"
)

// Text is file content. It is written as a JSON string when it is valid
// UTF-8 and as {"b64": …} otherwise, so replay files stay readable.
type Text []byte

func (t Text) MarshalJSON() ([]byte, error) {
	if utf8.Valid(t) {
		return json.Marshal(string(t))
	}
	return json.Marshal(map[string]string{"b64": base64.StdEncoding.EncodeToString(t)})
}

func (t *Text) UnmarshalJSON(b []byte) error {
	var s string
	if json.Unmarshal(b, &s) == nil {
		*t = Text(s)
		return nil
	}
	var m map[string]string
	if err := json.Unmarshal(b, &m); err != nil {
		return err
	}
	d, err := base64.StdEncoding.DecodeString(m["b64"])
	*t = d
	return err
}

// Sym is a symbol section in byte offsets of the document content.
type Sym struct {
	Start, End int
	Kind       string `json:",omitempty"`
	Parent     string `json:",omitempty"`
	ParentKind string `json:",omitempty"`
}

type Doc struct {
	Name     string
	Content  Text
	Branches []string
	Language string `json:",omitempty"`
	SubRepo  string `json:",omitempty"`
	Symbols  []Sym  `json:",omitempty"`
	// Skip makes the document a skipped one the way Builder does it
	// (content replaced by the NOT-INDEXED marker). 0 = none.
	Skip int `json:",omitempty"`
}

type Branch struct {
	Name, Version string
}

type Repo struct {
	Name           string
	ID             uint32
	TenantID       int `json:",omitempty"`
	Branches       []Branch
	RawConfig      map[string]string `json:",omitempty"`
	Metadata       map[string]string `json:",omitempty"`
	Rank           uint16            `json:",omitempty"`
	Tombstone      bool              `json:",omitempty"`
	FileTombstones []string          `json:",omitempty"`
	SubRepos       []string          `json:",omitempty"` // mount paths; sub repo name = Name+"/"+path
	URL            string            `json:",omitempty"`
	FileURL        string            `json:",omitempty"`
	LineFragment   string            `json:",omitempty"`
	CommitURL      string            `json:",omitempty"`
	Docs           []Doc
}

type Corpus struct {
	Repos []Repo
	// Compound: all repositories are merged into one compound shard
	// (index.Merge); otherwise one simple shard per repository.
	Compound bool `json:",omitempty"`
	// Hot: text around the position where a near-miss document (addTwin)
	// differs from its original; patterns are drawn from it.
	Hot []string `json:",omitempty"`
}

const NotIndexedMarker = "NOT-INDEXED: "

var skipExplanation = map[int]string{
	int(index.SkipReasonTooLarge):        "exceeds the maximum size limit",
	int(index.SkipReasonTooSmall):        "contains too few trigrams",
	int(index.SkipReasonBinary):          "contains binary content",
	int(index.SkipReasonTooManyTrigrams): "contains too many trigrams",
	int(index.SkipReasonMissing):         "object missing from repository",
}

// EffectiveContent is what a search sees as the content of the document.
func (d *Doc) EffectiveContent() []byte {
	if d.Skip != 0 {
		return []byte(NotIndexedMarker + skipExplanation[d.Skip])
	}
	return d.Content
}

func (r *Repo) ZoektRepo() *zoekt.Repository {
	zr := &zoekt.Repository{
		TenantID:             r.TenantID,
		ID:                   r.ID,
		Name:                 r.Name,
		URL:                  r.URL,
		Rank:                 r.Rank,
		FileURLTemplate:      r.FileURL,
		LineFragmentTemplate: r.LineFragment,
		CommitURLTemplate:    r.CommitURL,
	}
	if len(r.Metadata) > 0 {
		zr.Metadata = map[string]string{}
		for k, v := range r.Metadata {
			zr.Metadata[k] = v
		}
	}
	zr.RawConfig = map[string]string{}
	for k, v := range r.RawConfig {
		zr.RawConfig[k] = v
	}
	// ID and tenant are restored from RawConfig when a shard is read.
	zr.RawConfig["repoid"] = fmt.Sprint(r.ID)
	if r.TenantID != 0 {
		zr.RawConfig["tenantID"] = fmt.Sprint(r.TenantID)
	}
	for _, b := range r.Branches {
		zr.Branches = append(zr.Branches, zoekt.RepositoryBranch{Name: b.Name, Version: b.Version})
	}
	if len(r.SubRepos) > 0 {
		zr.SubRepoMap = map[string]*zoekt.Repository{}
		for _, p := range r.SubRepos {
			sr := &zoekt.Repository{Name: r.Name + "/" + p, URL: "http://sub/" + p}
			for _, b := range r.Branches {
				sr.Branches = append(sr.Branches, zoekt.RepositoryBranch{Name: b.Name, Version: "sub-" + b.Version})
			}
			zr.SubRepoMap[p] = sr
		}
	}
	if len(r.FileTombstones) > 0 {
		zr.FileTombstones = map[string]struct{}{}
		for _, f := range r.FileTombstones {
			zr.FileTombstones[f] = struct{}{}
		}
	}
	return zr
}

func (d *Doc) ZoektDoc() index.Document {
	zd := index.Document{
		Name:              d.Name,
		Content:           append([]byte(nil), d.Content...),
		Branches:          append([]string(nil), d.Branches...),
		Language:          d.Language,
		SubRepositoryPath: d.SubRepo,
		SkipReason:        index.SkipReason(d.Skip),
	}
	for _, s := range d.Symbols {
		zd.Symbols = append(zd.Symbols, index.DocumentSection{Start: uint32(s.Start), End: uint32(s.End)})
		zd.SymbolsMetaData = append(zd.SymbolsMetaData, &zoekt.Symbol{
			Sym: string(d.Content[s.Start:s.End]), Kind: s.Kind, Parent: s.Parent, ParentKind: s.ParentKind,
		})
	}
	return zd
}

// MemFile is an in-memory index.IndexFile.
type MemFile struct {
	Data []byte
	Nm   string
}

func (m *MemFile) Read(off, sz uint32) ([]byte, error) {
	if uint64(off)+uint64(sz) > uint64(len(m.Data)) {
		return nil, fmt.Errorf("memfile: read [%d,+%d) beyond %d", off, sz, len(m.Data))
	}
	return m.Data[off : off+sz], nil
}
func (m *MemFile) Size() (uint32, error) { return uint32(len(m.Data)), nil }
func (m *MemFile) Close()                {}
func (m *MemFile) Name() string {
	if m.Nm == "" {
		return "mem"
	}
	return m.Nm
}

// BuildSimple writes the repository as one simple shard and returns its bytes.
// The repository's Tombstone flag is NOT applied (simple shards are deleted,
// not tombstoned); FileTombstones are part of the metadata.
func BuildSimple(r *Repo) ([]byte, error) {
	b, err := index.NewShardBuilder(r.ZoektRepo())
	if err != nil {
		return nil, err
	}
	for i := range r.Docs {
		if err := b.Add(r.Docs[i].ZoektDoc()); err != nil {
			return nil, fmt.Errorf("add %q: %w", r.Docs[i].Name, err)
		}
	}
	var buf bytes.Buffer
	if err := b.Write(&buf); err != nil {
		return nil, err
	}
	return buf.Bytes(), nil
}

// Built is a corpus written to shards.
type Built struct {
	Dir    string   // "" when in memory only
	Paths  []string // shard paths on disk (if Dir != "")
	Shards []zoekt.Searcher
	files  []index.IndexFile
}

func (b *Built) Close() {
	for _, s := range b.Shards {
		s.Close()
	}
}

// Build materialises the corpus. Simple layout with dir == "" stays in memory.
// Compound layout needs a directory (index.Merge writes to disk); tombstones
// of compound members are applied with index.SetTombstone afterwards.
// Repositories without documents get no shard (an empty shard is never
// written by the real builders either — except through Builder, C09/C10).
func Build(c *Corpus, dir string) (*Built, error) {
	out := &Built{Dir: dir}
	var mem []*MemFile
	for i := range c.Repos {
		r := &c.Repos[i]
		if len(r.Docs) == 0 {
			continue
		}
		data, err := BuildSimple(r)
		if err != nil {
			return nil, fmt.Errorf("repo %s: %w", r.Name, err)
		}
		mem = append(mem, &MemFile{Data: data, Nm: fmt.Sprintf("%s_%d_v16.00000.zoekt", sanitize(r.Name), r.ID)})
	}
	if c.Compound && len(mem) > 0 {
		if dir == "" {
			return nil, fmt.Errorf("compound layout needs a directory")
		}
		files := make([]index.IndexFile, len(mem))
		for i, m := range mem {
			files[i] = m
		}
		tmp, dst, err := index.Merge(dir, files...)
		if err != nil {
			return nil, fmt.Errorf("merge: %w", err)
		}
		if err := os.Rename(tmp, dst); err != nil {
			return nil, err
		}
		for i := range c.Repos {
			if c.Repos[i].Tombstone && len(c.Repos[i].Docs) > 0 {
				if err := index.SetTombstone(dst, c.Repos[i].ID); err != nil {
					return nil, fmt.Errorf("tombstone: %w", err)
				}
			}
		}
		out.Paths = []string{dst}
	} else if dir != "" {
		for _, m := range mem {
			p := filepath.Join(dir, m.Nm)
			if err := os.WriteFile(p, m.Data, 0o644); err != nil {
				return nil, err
			}
			out.Paths = append(out.Paths, p)
		}
	}
	if dir == "" {
		for _, m := range mem {
			s, err := index.NewSearcher(m)
			if err != nil {
				return nil, err
			}
			out.Shards = append(out.Shards, s)
		}
		return out, nil
	}
	for _, p := range out.Paths {
		f, err := os.Open(p)
		if err != nil {
			return nil, err
		}
		inf, err := index.NewIndexFile(f)
		if err != nil {
			return nil, err
		}
		s, err := index.NewSearcher(inf)
		if err != nil {
			return nil, err
		}
		out.Shards = append(out.Shards, s)
	}
	return out, nil
}

func sanitize(s string) string {
	b := []byte(s)
	for i, c := range b {
		if !(c >= 'a' && c <= 'z' || c >= 'A' && c <= 'Z' || c >= '0' && c <= '9' || c == '-' || c == '.') {
			b[i] = '_'
		}
	}
	return string(b)
}

// Live reports whether the repository is searchable in the given layout:
// tombstones only exist for members of compound shards.
func (c *Corpus) Live(r *Repo) bool {
	if len(r.Docs) == 0 {
		return false
	}
	return !(c.Compound && r.Tombstone)
}

// FileKey identifies a result file.
type FileKey struct {
	Repo, Name string
	// Branches joined with "," distinguishes same-named documents of a
	// repository (one per distinct content).
	Content string
}

func SortedKeys[M ~map[string]V, V any](m M) []string {
	ks := make([]string, 0, len(m))
	for k := range m {
		ks = append(ks, k)
	}
	sort.Strings(ks)
	return ks
}

// ---- building through index.Builder (skip decisions, several shards) ----

type BuilderConfig struct {
	ShardMax, SizeMax, TrigramMax, Parallelism int
	LargeFiles                                 []string `json:",omitempty"`
}

// ModelSkip is the documented skip decision of the indexer: too large, too
// small (1-2 bytes), binary (a NUL byte), too many distinct trigrams.
func ModelSkip(content []byte, sizeMax, trigramMax int, allowLarge bool) int {
	if len(content) > sizeMax && !allowLarge {
		return int(index.SkipReasonTooLarge)
	}
	if len(content) == 0 {
		return 0
	}
	if len(content) < 3 {
		return int(index.SkipReasonTooSmall)
	}
	if bytes.IndexByte(content, 0) >= 0 {
		return int(index.SkipReasonBinary)
	}
	if allowLarge {
		return 0
	}
	seen := map[[3]rune]struct{}{}
	var rs []rune
	for b := content; len(b) > 0; {
		r, sz := utf8.DecodeRune(b)
		b = b[sz:]
		rs = append(rs, r)
	}
	for i := 0; i+3 <= len(rs); i++ {
		seen[[3]rune{rs[i], rs[i+1], rs[i+2]}] = struct{}{}
	}
	if len(seen) > trigramMax {
		return int(index.SkipReasonTooManyTrigrams)
	}
	return 0
}

// BuildWithBuilder indexes the repository into dir through index.Builder, the
// way the indexing commands do. order (optional) permutes the insertion order.
func BuildWithBuilder(r *Repo, dir string, cfg BuilderConfig, order []int) error {
	opts := index.Options{
		IndexDir:              dir,
		RepositoryDescription: *r.ZoektRepo(),
		ShardMax:              cfg.ShardMax,
		SizeMax:               cfg.SizeMax,
		TrigramMax:            cfg.TrigramMax,
		Parallelism:           cfg.Parallelism,
		LargeFiles:            cfg.LargeFiles,
		DisableCTags:          true,
	}
	if len(r.SubRepos) > 0 {
		opts.SubRepositories = opts.RepositoryDescription.SubRepoMap
	}
	opts.SetDefaults()
	b, err := index.NewBuilder(opts)
	if err != nil {
		return err
	}
	if order == nil {
		for i := range r.Docs {
			order = append(order, i)
		}
	}
	for _, i := range order {
		if err := b.Add(r.Docs[i].ZoektDoc()); err != nil {
			b.Finish()
			return fmt.Errorf("add %q: %w", r.Docs[i].Name, err)
		}
	}
	return b.Finish()
}

// OpenDir opens every *.zoekt file of dir with index.NewSearcher.
func OpenDir(dir string) (*Built, error) {
	paths, err := filepath.Glob(filepath.Join(dir, "*.zoekt"))
	if err != nil {
		return nil, err
	}
	sort.Strings(paths)
	out := &Built{Dir: dir, Paths: paths}
	for _, p := range paths {
		f, err := os.Open(p)
		if err != nil {
			return nil, err
		}
		inf, err := index.NewIndexFile(f)
		if err != nil {
			return nil, err
		}
		s, err := index.NewSearcher(inf)
		if err != nil {
			return nil, fmt.Errorf("%s: %w", p, err)
		}
		out.Shards = append(out.Shards, s)
	}
	return out, nil
}
