//go:build verif

package kit

import (
	"bytes"
	"fmt"
	"hash/crc64"
	"regexp" // the standard library engine, on purpose: zoekt evaluates with grafana/regexp or RE2
	"strings"
	"unicode"
	"unicode/utf8"

	"github.com/sourcegraph/zoekt/query"
)

// Env is one document in its repository.
type Env struct {
	R *Repo
	D *Doc
}

// FoldEq reports whether two runes are equal under Unicode simple case folding.
func FoldEq(a, b rune) bool {
	if a == b {
		return true
	}
	for r := unicode.SimpleFold(a); r != a; r = unicode.SimpleFold(r) {
		if r == b {
			return true
		}
	}
	return false
}

// FoldMatchAt reports the byte length of text matched by pat (rune by rune,
// simple folding) at the start of text, or -1.
func FoldMatchAt(text []byte, pat string, caseSensitive bool) int {
	i := 0
	for _, pr := range pat {
		if i >= len(text) {
			return -1
		}
		tr, sz := utf8.DecodeRune(text[i:])
		if caseSensitive {
			if tr != pr || (tr == utf8.RuneError && sz == 1) {
				return -1
			}
		} else if !FoldEq(tr, pr) {
			return -1
		}
		i += sz
	}
	return i
}

// NaiveOccurrences lists every (possibly overlapping) occurrence [start,end)
// of pat in text found by a naive scan at every rune start.
func NaiveOccurrences(text []byte, pat string, caseSensitive bool) [][2]int {
	var out [][2]int
	if pat == "" {
		return out
	}
	if caseSensitive {
		off := 0
		for {
			i := bytes.Index(text[off:], []byte(pat))
			if i < 0 {
				break
			}
			out = append(out, [2]int{off + i, off + i + len(pat)})
			off += i + 1
		}
		return out
	}
	for i := 0; i < len(text); {
		if n := FoldMatchAt(text[i:], pat, false); n >= 0 {
			out = append(out, [2]int{i, i + n})
		}
		_, sz := utf8.DecodeRune(text[i:])
		i += sz
	}
	return out
}

func containsPat(text []byte, pat string, caseSensitive bool) bool {
	if pat == "" {
		return true
	}
	if caseSensitive {
		return bytes.Contains(text, []byte(pat))
	}
	for i := 0; i < len(text); {
		if FoldMatchAt(text[i:], pat, false) >= 0 {
			return true
		}
		_, sz := utf8.DecodeRune(text[i:])
		i += sz
	}
	return false
}

// StdRegexp compiles the query regexp with the standard library from the
// standard library's own printing of the syntax tree.
func StdRegexp(q *query.Regexp) (*regexp.Regexp, error) {
	prefix := ""
	if !q.CaseSensitive {
		prefix = "(?i)"
	}
	return regexp.Compile(prefix + q.Regexp.String())
}

// Eval is the reference meaning of a query on one document: every atom is
// checked by scanning the whole content or name.
func Eval(q query.Q, e Env) (bool, error) {
	switch s := q.(type) {
	case *query.And:
		for _, c := range s.Children {
			v, err := Eval(c, e)
			if err != nil {
				return false, err
			}
			if !v {
				return false, nil
			}
		}
		return true, nil
	case *query.Or:
		for _, c := range s.Children {
			v, err := Eval(c, e)
			if err != nil {
				return false, err
			}
			if v {
				return true, nil
			}
		}
		return false, nil
	case *query.Not:
		v, err := Eval(s.Child, e)
		return !v, err
	case *query.Const:
		return s.Value, nil
	case *query.Boost:
		return Eval(s.Child, e)
	case *query.Type:
		// A result-type wrapper selects the same documents as its child.
		return Eval(s.Child, e)
	case *query.Substring:
		content := e.D.EffectiveContent()
		inName := containsPat([]byte(e.D.Name), s.Pattern, s.CaseSensitive)
		inContent := containsPat(content, s.Pattern, s.CaseSensitive)
		if s.FileName == s.Content {
			return inName || inContent, nil
		}
		if s.FileName {
			return inName, nil
		}
		return inContent, nil
	case *query.Regexp:
		re, err := StdRegexp(s)
		if err != nil {
			return false, err
		}
		content := e.D.EffectiveContent()
		if s.FileName == s.Content {
			return re.MatchString(e.D.Name) || re.Match(content), nil
		}
		if s.FileName {
			return re.MatchString(e.D.Name), nil
		}
		return re.Match(content), nil
	case *query.Symbol:
		if e.D.Skip != 0 {
			return false, nil
		}
		switch x := s.Expr.(type) {
		case *query.Substring:
			for _, sec := range e.D.Symbols {
				if containsPat(e.D.Content[sec.Start:sec.End], x.Pattern, x.CaseSensitive) {
					return true, nil
				}
			}
			return false, nil
		case *query.Regexp:
			re, err := StdRegexp(x)
			if err != nil {
				return false, err
			}
			for _, sec := range e.D.Symbols {
				if re.Match(e.D.Content[sec.Start:sec.End]) {
					return true, nil
				}
			}
			return false, nil
		}
		return false, fmt.Errorf("refeval: unsupported symbol expression %T", s.Expr)
	case *query.Language:
		return e.D.Language == s.Language, nil
	case *query.Branch:
		for i, b := range e.R.Branches {
			if !docOnBranch(e.D, b.Name) {
				continue
			}
			if s.Pattern == "HEAD" {
				if i == 0 {
					return true, nil
				}
				continue
			}
			if (s.Exact && b.Name == s.Pattern) || (!s.Exact && strings.Contains(b.Name, s.Pattern)) {
				return true, nil
			}
		}
		return false, nil
	case *query.Repo:
		return s.Regexp.MatchString(e.R.Name), nil
	case *query.RepoRegexp:
		return s.Regexp.MatchString(e.R.Name), nil
	case *query.RepoSet:
		return s.Set[e.R.Name], nil
	case *query.RepoIDs:
		return s.Repos.Contains(e.R.ID), nil
	case *query.BranchesRepos:
		for _, br := range s.List {
			if br.Repos.Contains(e.R.ID) && docOnBranch(e.D, br.Branch) {
				return true, nil
			}
		}
		return false, nil
	case *query.FileNameSet:
		_, ok := s.Set[e.D.Name]
		return ok, nil
	case *query.Meta:
		v, ok := e.R.Metadata[s.Field]
		return ok && s.Value.MatchString(v), nil
	case query.RawConfig:
		return rawConfigMatch(s, e.R.RawConfig), nil
	}
	return false, fmt.Errorf("refeval: unsupported node %T", q)
}

func docOnBranch(d *Doc, b string) bool {
	for _, x := range d.Branches {
		if x == b {
			return true
		}
	}
	return false
}

func rawConfigMatch(rc query.RawConfig, cfg map[string]string) bool {
	type pair struct {
		only, no query.RawConfig
		key      string
	}
	for _, p := range []pair{
		{query.RcOnlyPublic, query.RcOnlyPrivate, "public"},
		{query.RcOnlyForks, query.RcNoForks, "fork"},
		{query.RcOnlyArchived, query.RcNoArchived, "archived"},
	} {
		yes := cfg[p.key] == "1"
		if rc&p.only != 0 && !yes {
			return false
		}
		if rc&p.no != 0 && yes {
			return false
		}
	}
	return true
}

// Expected returns the keys of the live documents on which q is true.
func Expected(c *Corpus, q query.Q) (map[string]bool, error) {
	out := map[string]bool{}
	for i := range c.Repos {
		r := &c.Repos[i]
		if !c.Live(r) {
			continue
		}
		ft := map[string]bool{}
		for _, f := range r.FileTombstones {
			ft[f] = true
		}
		for j := range r.Docs {
			d := &r.Docs[j]
			if ft[d.Name] {
				continue
			}
			v, err := Eval(q, Env{r, d})
			if err != nil {
				return nil, err
			}
			if v {
				out[DocKey(r, d)] = true
			}
		}
	}
	return out, nil
}

// DocKey identifies a document in results: repository, name and content
// checksum (documents of one repository with the same name differ in content).
func DocKey(r *Repo, d *Doc) string {
	return Key(r.Name, d.Name, Checksum(d.EffectiveContent()))
}

func Key(repo, name string, checksum []byte) string {
	return fmt.Sprintf("%s\x00%s\x00%x", repo, name, checksum)
}

var crcTable = crc64.MakeTable(crc64.ISO)

func Checksum(b []byte) []byte {
	h := crc64.New(crcTable)
	h.Write(b)
	return h.Sum(nil)
}
