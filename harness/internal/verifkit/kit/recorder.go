//go:build verif

// Package kit is the shared machinery of the /verif property checks: evidence
// recording, replay handling, known-finding bookkeeping. It is compiled into the
// zoekt module only through `go test -overlay` with `-tags verif`.
package kit

import (
	"encoding/json"
	"errors"
	"fmt"
	"hash/fnv"
	"os"
	"path/filepath"
	"runtime/debug"
	"sort"
	"strings"
	"sync"
	"testing"

	"pgregory.net/rapid"
)

// Discrepancy is the error type returned by a property's run function.
type Discrepancy struct {
	Kind   string // short machine-readable class, e.g. "missing-file"
	Detail string
	// Known is the id of the known-finding recognizer that claims this
	// discrepancy ("" = none). It only suppresses the failure when that id is
	// listed in known_findings.json.
	Known string
}

func (d *Discrepancy) Error() string { return d.Kind + ": " + d.Detail }

func Fail(kind, format string, args ...any) *Discrepancy {
	return &Discrepancy{Kind: kind, Detail: fmt.Sprintf(format, args...)}
}

func FailKnown(known, kind, format string, args ...any) *Discrepancy {
	return &Discrepancy{Kind: kind, Detail: fmt.Sprintf(format, args...), Known: known}
}

type Recorder struct {
	ID   string
	Tier string

	mu          sync.Mutex
	evals       int
	nt          map[uint64]struct{}
	labels      map[string]int
	samples     []json.RawMessage
	ntSamples   int
	known       map[string]int
	violations  int
	rule        string
	assumptions []string
	extra       map[string]any
	activeKnown map[string]bool
	out         string
	journal     bool
}

type knownFile struct {
	Findings []struct {
		Property string `json:"property"`
		ID       string `json:"id"`
	} `json:"findings"`
}

// Open creates the recorder for one check and arranges for it to be flushed
// when the test ends.
func Open(tb testing.TB, id, rule string, assumptions ...string) *Recorder {
	r := &Recorder{
		ID:          id,
		Tier:        os.Getenv("VERIF_TIER"),
		nt:          map[uint64]struct{}{},
		labels:      map[string]int{},
		known:       map[string]int{},
		extra:       map[string]any{},
		rule:        rule,
		assumptions: assumptions,
		activeKnown: map[string]bool{},
		out:         os.Getenv("VERIF_OUT"),
	}
	if r.Tier == "" {
		r.Tier = "quick"
	}
	if r.out == "" {
		r.out = tb.TempDir()
	}
	if p := os.Getenv("VERIF_KNOWN"); p != "" {
		if b, err := os.ReadFile(p); err == nil {
			var kf knownFile
			if json.Unmarshal(b, &kf) == nil {
				for _, f := range kf.Findings {
					if f.Property == id {
						r.activeKnown[f.ID] = true
					}
				}
			}
		}
	}
	tb.Cleanup(r.Flush)
	return r
}

func (r *Recorder) Thorough() bool { return r.Tier == "thorough" }

// Eval counts one evaluated case. key identifies the case for the distinct
// count; it is only stored when nontrivial.
func (r *Recorder) Eval(key string, nontrivial bool, labels ...string) {
	r.mu.Lock()
	defer r.mu.Unlock()
	r.evals++
	if nontrivial {
		h := fnv.New64a()
		h.Write([]byte(key))
		r.nt[h.Sum64()] = struct{}{}
	}
	for _, l := range labels {
		if l != "" {
			r.labels[l]++
		}
	}
}

func (r *Recorder) Label(labels ...string) {
	r.mu.Lock()
	defer r.mu.Unlock()
	for _, l := range labels {
		if l != "" {
			r.labels[l]++
		}
	}
}

func (r *Recorder) Add(key string, n int) {
	r.mu.Lock()
	defer r.mu.Unlock()
	if v, ok := r.extra[key].(int); ok {
		r.extra[key] = v + n
	} else {
		r.extra[key] = n
	}
}

func (r *Recorder) Set(key string, v any) {
	r.mu.Lock()
	defer r.mu.Unlock()
	r.extra[key] = v
}

// Sample keeps a few cases in their JSON form; non-trivial ones are preferred.
func (r *Recorder) Sample(c any, nontrivial bool) {
	r.mu.Lock()
	defer r.mu.Unlock()
	if nontrivial {
		if r.ntSamples >= 4 {
			return
		}
	} else if len(r.samples) >= 2 {
		return
	}
	b, err := json.Marshal(c)
	if err != nil {
		return
	}
	if len(b) > 6000 {
		b, _ = json.Marshal(string(b[:6000]) + "…(truncated)")
	}
	if nontrivial {
		r.ntSamples++
	}
	r.samples = append(r.samples, b)
}

type envelope struct {
	Property    string          `json:"property"`
	Discrepancy string          `json:"discrepancy,omitempty"`
	Known       string          `json:"known,omitempty"`
	Case        json.RawMessage `json:"case"`
}

func (r *Recorder) writeCase(prefix string, c any, d error) {
	b, err := json.Marshal(c)
	if err != nil {
		b, _ = json.Marshal(fmt.Sprintf("%#v", c))
	}
	env := envelope{Property: r.ID, Case: b}
	if d != nil {
		env.Discrepancy = d.Error()
		var dd *Discrepancy
		if errors.As(d, &dd) {
			env.Known = dd.Known
		}
	}
	eb, _ := json.MarshalIndent(env, "", " ")
	p := filepath.Join(r.out, fmt.Sprintf("%s_%s.json", prefix, r.ID))
	tmp := p + ".tmp"
	if os.WriteFile(tmp, eb, 0o644) == nil {
		os.Rename(tmp, p)
	}
}

// Journal writes the case to disk *before* it is executed, so that the death
// of the process still leaves a replay file.
func (r *Recorder) Journal(c any) {
	r.writeCase(fmt.Sprintf("journal_%d", os.Getpid()), c, nil)
	r.journal = true
}

// JournalDone removes the journal after the case returned.
func (r *Recorder) JournalDone() {
	os.Remove(filepath.Join(r.out, fmt.Sprintf("journal_%d_%s.json", os.Getpid(), r.ID)))
}

// Judge turns the result of running a case into pass / known / violation.
// It returns a non-nil error only for a violation.
func (r *Recorder) Judge(c any, err error) error {
	if err == nil {
		return nil
	}
	var d *Discrepancy
	if errors.As(err, &d) && d.Known != "" && r.activeKnown[d.Known] {
		r.mu.Lock()
		r.known[d.Known]++
		first := r.known[d.Known] == 1
		r.mu.Unlock()
		if first {
			r.writeCase("known_"+d.Known, c, err)
		}
		return nil
	}
	r.mu.Lock()
	r.violations++
	r.mu.Unlock()
	r.writeCase("fail", c, err)
	return err
}

func (r *Recorder) Flush() {
	r.mu.Lock()
	defer r.mu.Unlock()
	type dump struct {
		Evaluations int               `json:"evaluations"`
		Labels      map[string]int    `json:"labels"`
		Samples     []json.RawMessage `json:"samples"`
		Known       map[string]int    `json:"known"`
		Violations  int               `json:"violations"`
		Rule        string            `json:"rule"`
		Assumptions []string          `json:"assumptions"`
		Extra       map[string]any    `json:"extra"`
	}
	d := dump{r.evals, r.labels, r.samples, r.known, r.violations, r.rule, r.assumptions, r.extra}
	b, _ := json.MarshalIndent(d, "", " ")
	os.WriteFile(filepath.Join(r.out, fmt.Sprintf("rec_%s_%d.json", r.ID, os.Getpid())), b, 0o644)
	var sb strings.Builder
	keys := make([]uint64, 0, len(r.nt))
	for k := range r.nt {
		keys = append(keys, k)
	}
	sort.Slice(keys, func(i, j int) bool { return keys[i] < keys[j] })
	for _, k := range keys {
		fmt.Fprintf(&sb, "%016x\n", k)
	}
	os.WriteFile(filepath.Join(r.out, fmt.Sprintf("hashes_%s_%d.txt", r.ID, os.Getpid())), []byte(sb.String()), 0o644)
}

// Guard runs f and converts a panic in the code under test into a Discrepancy.
func Guard(f func() error) (err error) {
	defer func() {
		if p := recover(); p != nil {
			st := string(debug.Stack())
			if len(st) > 2500 {
				st = st[:2500]
			}
			err = &Discrepancy{Kind: "panic", Detail: fmt.Sprintf("%v\n%s", p, st)}
		}
	}()
	return f()
}

// Property runs one property: committed replay files first (each must pass or
// be a listed known finding), then either the single file named by
// VERIF_REPLAY or a rapid search over gen.
func Property[C any](t *testing.T, r *Recorder, gen func(*rapid.T) C, run func(C) error) {
	t.Helper()
	replayOne := func(path string) error {
		b, err := os.ReadFile(path)
		if err != nil {
			return err
		}
		var env envelope
		if err := json.Unmarshal(b, &env); err != nil {
			return fmt.Errorf("%s: %v", path, err)
		}
		var c C
		if err := json.Unmarshal(env.Case, &c); err != nil {
			return fmt.Errorf("%s: %v", path, err)
		}
		return r.Judge(c, Guard(func() error { return run(c) }))
	}
	if p := os.Getenv("VERIF_REPLAY"); p != "" {
		if err := replayOne(p); err != nil {
			t.Fatalf("replay %s: %v", p, err)
		}
		r.mu.Lock()
		kn := fmt.Sprint(r.known)
		r.mu.Unlock()
		t.Logf("replay %s: no violation (known=%s)", p, kn)
		return
	}
	if dir := os.Getenv("VERIF_REPLAYS"); dir != "" && os.Getenv("VERIF_SKIP_REPLAYS") == "" {
		files, _ := filepath.Glob(filepath.Join(dir, "*.json"))
		sort.Strings(files)
		for _, f := range files {
			if err := replayOne(f); err != nil {
				t.Fatalf("regression replay %s: %v", f, err)
			}
			r.Add("regression_replays", 1)
		}
	}
	rapid.Check(t, func(rt *rapid.T) {
		c := gen(rt)
		if r.journal {
			r.Journal(c)
		}
		err := Guard(func() error { return run(c) })
		if r.journal {
			r.JournalDone()
		}
		if err := r.Judge(c, err); err != nil {
			rt.Fatalf("%v", err)
		}
	})
}

// EnableJournal makes Property write each case to disk before running it.
func (r *Recorder) EnableJournal() { r.journal = true }
