//go:build verif

// Package fsx is the filesystem fault shim of the /verif checks.
//
// /verif/tools/fsrewrite redirects the calls os.Rename, os.Remove, … of the
// zoekt sources under test to the functions of the same name in this package.
// They have the signatures of their package os counterparts and pass straight
// through unless a test has called Start. Between Start and Stop every call is
// appended to an operation log and two controls are available:
//
//   - Config.SnapshotBefore is invoked before each *mutating* operation, while
//     the operation is held back, so the harness can copy the directory as it
//     stands: exactly what `kill -9` before that system call leaves behind.
//   - Config.FailAt chooses operations that fail with an error (for example
//     syscall.EIO) without being performed.
//
// Everything is serialised by one mutex (Builder.Finish and Builder.flush run
// work in goroutines): log order is execution order and no intercepted
// operation runs while a snapshot is taken. Writes through an *os.File are not
// intercepted; harnesses assert instead that files under final names only ever
// change through an intercepted rename (unexplainedFinalChange in the C12 check,
// c35Unexplained in the C35 check).
//
// It imports only the standard library so that any zoekt package can import it.
package fsx

import (
	"io"
	"io/fs"
	"os"
	"path/filepath"
	"regexp"
	"sort"
	"sync"
	"sync/atomic"
	"time"
)

// Operation kinds.
const (
	KRename     = "rename"
	KRemove     = "remove"
	KRemoveAll  = "removeall"
	KCreate     = "create"
	KCreateTemp = "createtemp"
	KOpenFile   = "openfile"
	KOpen       = "open"
	KWriteFile  = "writefile"
	KMkdir      = "mkdir"
	KMkdirAll   = "mkdirall"
	KChtimes    = "chtimes"
	KSymlink    = "symlink"
	KLink       = "link"
	KTruncate   = "truncate"
	KReadFile   = "readfile"
	KStat       = "stat"
)

// Op is one intercepted call.
type Op struct {
	Seq      int    // position in the log, from 0
	Kind     string // one of the constants above
	KindSeq  int    // ordinal among the operations of the same Kind, from 0
	IdentSeq int    // ordinal among the operations with the same Ident(), from 0
	Path     string // first path argument (CreateTemp: dir/pattern)
	Path2    string `json:",omitempty"` // second path argument (Rename, Link, Symlink: the new name)
	Flag     int    `json:",omitempty"` // OpenFile: flags
	Mutating bool
	// filled in after the call
	Failed bool   `json:",omitempty"` // an error was injected, the operation was not performed
	Err    string `json:",omitempty"` // error text returned to the caller ("" = nil)
	Result string `json:",omitempty"` // CreateTemp: name of the file created
}

var tmpNumber = regexp.MustCompile(`\.[0-9]+\.tmp`)

// NormBase is the base name of path with the random component of temporary
// names (os.CreateTemp's "*" replacement) normalised to "*": the same logical
// file has the same NormBase in every run.
func NormBase(path string) string {
	if path == "" {
		return ""
	}
	return tmpNumber.ReplaceAllString(filepath.Base(path), ".*.tmp")
}

// Ident names an operation independently of the run: kind and normalised base
// names of its paths. Builder.Finish renames in Go map order, so the position
// in the log is not stable between runs, (Ident, ordinal among equal Idents) is.
func (o Op) Ident() string { return o.IdentIn("") }

// IdentIn is Ident for runs that work in different scratch directories: a path
// equal to dir is written ".", so that the identity does not contain the
// directory's (random) name.
func (o Op) IdentIn(dir string) string {
	norm := func(p string) string {
		if dir != "" && filepath.Clean(p) == filepath.Clean(dir) {
			return "."
		}
		return NormBase(p)
	}
	s := o.Kind + ":" + norm(o.Path)
	if o.Path2 != "" {
		s += "->" + norm(o.Path2)
	}
	return s
}

// Point is an operation of a log together with its run-independent identity:
// (ID, Nth) = IdentIn(dir) and the ordinal among the operations with that ID.
type Point struct {
	Op  Op
	ID  string
	Nth int
}

// Points numbers the operations of a log that ran in dir.
func Points(dir string, log []Op) []Point {
	seen := map[string]int{}
	out := make([]Point, 0, len(log))
	for _, op := range log {
		id := op.IdentIn(dir)
		out = append(out, Point{Op: op, ID: id, Nth: seen[id]})
		seen[id]++
	}
	return out
}

// FailPoint returns a Config.FailAt that fails the operation (id, nth) of a
// run in dir with err.
func FailPoint(dir, id string, nth int, err error) func(Op) error {
	seen := 0
	return func(op Op) error {
		if op.IdentIn(dir) != id {
			return nil
		}
		seen++
		if seen-1 == nth {
			return err
		}
		return nil
	}
}

// Config is what Start installs.
type Config struct {
	// SnapshotBefore is called before every mutating operation (also before one
	// that FailAt is about to fail), with the shim's lock held: it must not
	// call into fsx.
	SnapshotBefore func(op Op)
	// FailAt returns a non-nil error to make the operation fail with that
	// error without performing it.
	FailAt func(op Op) error
}

var (
	active atomic.Bool
	mu     sync.Mutex
	cfg    Config
	oplog  []Op
	kinds  map[string]int
	idents map[string]int
)

// Start begins recording. It panics if a recording is already active (two
// tests using the shim must not run in parallel).
func Start(c Config) {
	mu.Lock()
	defer mu.Unlock()
	if active.Load() {
		panic("fsx.Start: already active")
	}
	cfg = c
	oplog = nil
	kinds = map[string]int{}
	idents = map[string]int{}
	active.Store(true)
}

// Stop ends the recording and returns the log.
func Stop() []Op {
	mu.Lock()
	defer mu.Unlock()
	active.Store(false)
	l := oplog
	oplog, cfg = nil, Config{}
	return l
}

// Active reports whether a recording is in progress.
func Active() bool { return active.Load() }

// do runs one intercepted operation. perform returns the error of the real
// call and, for CreateTemp, the resulting name.
func do(kind, path, path2 string, flag int, mutating bool, perform func() (string, error)) error {
	if !active.Load() {
		_, err := perform()
		return err
	}
	mu.Lock()
	defer mu.Unlock()
	if !active.Load() {
		_, err := perform()
		return err
	}
	op := Op{Seq: len(oplog), Kind: kind, KindSeq: kinds[kind], Path: path, Path2: path2, Flag: flag, Mutating: mutating}
	op.IdentSeq = idents[op.Ident()]
	kinds[kind]++
	idents[op.Ident()]++
	if mutating && cfg.SnapshotBefore != nil {
		cfg.SnapshotBefore(op)
	}
	var err error
	if cfg.FailAt != nil {
		err = cfg.FailAt(op)
	}
	if err != nil {
		op.Failed = true
	} else {
		op.Result, err = perform()
	}
	if err != nil {
		op.Err = err.Error()
	}
	oplog = append(oplog, op)
	return err
}

func pathErr(op, path string, err error) error {
	if err == nil {
		return nil
	}
	if _, ok := err.(*fs.PathError); ok {
		return err
	}
	if _, ok := err.(*os.LinkError); ok {
		return err
	}
	return &fs.PathError{Op: op, Path: path, Err: err}
}

func linkErr(op, oldp, newp string, err error) error {
	if err == nil {
		return nil
	}
	if _, ok := err.(*os.LinkError); ok {
		return err
	}
	if _, ok := err.(*fs.PathError); ok {
		return err
	}
	return &os.LinkError{Op: op, Old: oldp, New: newp, Err: err}
}

// ---- the redirected functions (same names and signatures as in package os) ----

func Rename(oldpath, newpath string) error {
	err := do(KRename, oldpath, newpath, 0, true, func() (string, error) { return "", os.Rename(oldpath, newpath) })
	return linkErr("rename", oldpath, newpath, err)
}

func Remove(name string) error {
	return pathErr("remove", name, do(KRemove, name, "", 0, true, func() (string, error) { return "", os.Remove(name) }))
}

func RemoveAll(path string) error {
	return pathErr("removeall", path, do(KRemoveAll, path, "", 0, true, func() (string, error) { return "", os.RemoveAll(path) }))
}

func Create(name string) (*os.File, error) {
	var f *os.File
	err := do(KCreate, name, "", 0, true, func() (string, error) {
		var err error
		f, err = os.Create(name)
		return "", err
	})
	if err != nil {
		return nil, pathErr("open", name, err)
	}
	return f, nil
}

func CreateTemp(dir, pattern string) (*os.File, error) {
	var f *os.File
	d := dir
	if d == "" {
		d = os.TempDir()
	}
	err := do(KCreateTemp, filepath.Join(d, pattern), "", 0, true, func() (string, error) {
		var err error
		f, err = os.CreateTemp(dir, pattern)
		if err != nil {
			return "", err
		}
		return f.Name(), nil
	})
	if err != nil {
		return nil, pathErr("createtemp", filepath.Join(d, pattern), err)
	}
	return f, nil
}

const writeFlags = os.O_WRONLY | os.O_RDWR | os.O_APPEND | os.O_CREATE | os.O_TRUNC

func OpenFile(name string, flag int, perm os.FileMode) (*os.File, error) {
	var f *os.File
	err := do(KOpenFile, name, "", flag, flag&writeFlags != 0, func() (string, error) {
		var err error
		f, err = os.OpenFile(name, flag, perm)
		return "", err
	})
	if err != nil {
		return nil, pathErr("open", name, err)
	}
	return f, nil
}

func Open(name string) (*os.File, error) {
	var f *os.File
	err := do(KOpen, name, "", 0, false, func() (string, error) {
		var err error
		f, err = os.Open(name)
		return "", err
	})
	if err != nil {
		return nil, pathErr("open", name, err)
	}
	return f, nil
}

func WriteFile(name string, data []byte, perm os.FileMode) error {
	return pathErr("open", name, do(KWriteFile, name, "", 0, true, func() (string, error) { return "", os.WriteFile(name, data, perm) }))
}

func Mkdir(name string, perm os.FileMode) error {
	return pathErr("mkdir", name, do(KMkdir, name, "", 0, true, func() (string, error) { return "", os.Mkdir(name, perm) }))
}

func MkdirAll(path string, perm os.FileMode) error {
	return pathErr("mkdir", path, do(KMkdirAll, path, "", 0, true, func() (string, error) { return "", os.MkdirAll(path, perm) }))
}

func Chtimes(name string, atime, mtime time.Time) error {
	return pathErr("chtimes", name, do(KChtimes, name, "", 0, true, func() (string, error) { return "", os.Chtimes(name, atime, mtime) }))
}

func Symlink(oldname, newname string) error {
	return linkErr("symlink", oldname, newname, do(KSymlink, oldname, newname, 0, true, func() (string, error) { return "", os.Symlink(oldname, newname) }))
}

func Link(oldname, newname string) error {
	return linkErr("link", oldname, newname, do(KLink, oldname, newname, 0, true, func() (string, error) { return "", os.Link(oldname, newname) }))
}

func Truncate(name string, size int64) error {
	return pathErr("truncate", name, do(KTruncate, name, "", 0, true, func() (string, error) { return "", os.Truncate(name, size) }))
}

func ReadFile(name string) ([]byte, error) {
	var b []byte
	err := do(KReadFile, name, "", 0, false, func() (string, error) {
		var err error
		b, err = os.ReadFile(name)
		return "", err
	})
	if err != nil {
		return nil, pathErr("open", name, err)
	}
	return b, nil
}

func Stat(name string) (os.FileInfo, error) {
	var fi os.FileInfo
	err := do(KStat, name, "", 0, false, func() (string, error) {
		var err error
		fi, err = os.Stat(name)
		return "", err
	})
	if err != nil {
		return nil, pathErr("stat", name, err)
	}
	return fi, nil
}

// ---- helpers for harnesses (plain package os, never intercepted) ----

// CopyDir copies the regular files of src (not recursing) into the new or
// existing directory dst. A file that vanishes or is being written while it is
// copied is copied as far as it can be read (only temporary files can be in
// that state, see the package comment).
func CopyDir(src, dst string) error {
	if err := os.MkdirAll(dst, 0o755); err != nil {
		return err
	}
	ents, err := os.ReadDir(src)
	if err != nil {
		return err
	}
	for _, e := range ents {
		if !e.Type().IsRegular() {
			continue
		}
		in, err := os.Open(filepath.Join(src, e.Name()))
		if err != nil {
			if os.IsNotExist(err) {
				continue
			}
			return err
		}
		out, err := os.Create(filepath.Join(dst, e.Name()))
		if err != nil {
			in.Close()
			return err
		}
		_, err = io.Copy(out, in)
		in.Close()
		if cerr := out.Close(); err == nil {
			err = cerr
		}
		if err != nil {
			return err
		}
	}
	return nil
}

// Names returns the sorted names of the regular files in dir.
func Names(dir string) []string {
	ents, _ := os.ReadDir(dir)
	var out []string
	for _, e := range ents {
		if e.Type().IsRegular() {
			out = append(out, e.Name())
		}
	}
	sort.Strings(out)
	return out
}
