//go:build verif

package hybridre2

// VerifSetThreshold overrides the RE2 size threshold, which is otherwise read
// from the environment once per process ("Tests may reassign this variable").
// Only compiled into verification builds (-tags verif, added by overlay).
func VerifSetThreshold(n int64) {
	threshold = func() int64 { return n }
}
