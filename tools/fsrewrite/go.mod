module fsrewrite

go 1.23
