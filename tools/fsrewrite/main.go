// Command fsrewrite instruments one Go source file for filesystem fault
// injection: every reference to one of a fixed set of functions of package os
// (os.Rename, os.Remove, ...) is redirected to the function of the same name
// in package fsx (github.com/sourcegraph/zoekt/internal/verifkit/fsx), which
// has identical signatures and passes through to package os unless a test
// installs a snapshot hook or a failure.
//
// usage: fsrewrite <input.go> <output.go>
//
// The file is parsed with go/parser to find the selector expressions (so that
// strings, comments and local identifiers named "os" are left alone); the edits
// are applied to the source text at the positions found, and the result is
// printed through go/format. It works on whatever the input currently contains:
// bin/check runs it on the current working tree file at check time, so a
// modified Finish() is instrumented as modified.
package main

import (
	"fmt"
	"go/ast"
	"go/format"
	"go/parser"
	"go/token"
	"os"
	"path/filepath"
	"sort"
	"strconv"
)

const fsxImport = "github.com/sourcegraph/zoekt/internal/verifkit/fsx"

var redirected = map[string]bool{
	"Rename": true, "Remove": true, "RemoveAll": true, "Create": true, "CreateTemp": true,
	"OpenFile": true, "Open": true, "WriteFile": true, "Mkdir": true, "MkdirAll": true,
	"Chtimes": true, "Symlink": true, "Link": true, "Truncate": true, "ReadFile": true, "Stat": true,
}

type edit struct {
	start, end int // byte offsets in the source
	text       string
}

func main() {
	if len(os.Args) != 3 {
		fmt.Fprintln(os.Stderr, "usage: fsrewrite <input.go> <output.go>")
		os.Exit(2)
	}
	src, err := os.ReadFile(os.Args[1])
	if err != nil {
		fatal(err)
	}
	out, n, err := rewrite(os.Args[1], src)
	if err != nil {
		fatal(err)
	}
	if err := os.MkdirAll(filepath.Dir(os.Args[2]), 0o755); err != nil {
		fatal(err)
	}
	if err := os.WriteFile(os.Args[2], out, 0o644); err != nil {
		fatal(err)
	}
	fmt.Printf("fsrewrite: %s: %d reference(s) redirected\n", os.Args[1], n)
}

func fatal(err error) {
	fmt.Fprintln(os.Stderr, "fsrewrite:", err)
	os.Exit(1)
}

func rewrite(name string, src []byte) ([]byte, int, error) {
	fset := token.NewFileSet()
	file, err := parser.ParseFile(fset, name, src, parser.ParseComments)
	if err != nil {
		return nil, 0, err
	}
	off := func(p token.Pos) int { return fset.Position(p).Offset }

	// the name under which package os is imported in this file
	var osSpec *ast.ImportSpec
	var osDecl *ast.GenDecl
	osName := ""
	fsxName := "" // name of an already present fsx import
	for _, d := range file.Decls {
		gd, ok := d.(*ast.GenDecl)
		if !ok || gd.Tok != token.IMPORT {
			continue
		}
		for _, s := range gd.Specs {
			is := s.(*ast.ImportSpec)
			p, _ := strconv.Unquote(is.Path.Value)
			switch p {
			case "os":
				osSpec, osDecl = is, gd
				osName = "os"
				if is.Name != nil {
					osName = is.Name.Name
				}
			case fsxImport:
				fsxName = "fsx"
				if is.Name != nil {
					fsxName = is.Name.Name
				}
			}
		}
	}
	if osSpec == nil || osName == "_" || osName == "." {
		// nothing to redirect (or not analysable without type information):
		// emit the file unchanged, formatted.
		out, err := format.Source(src)
		return out, 0, err
	}

	// an identifier that would collide with the package name we introduce
	target := fsxName
	if target == "" {
		target = "fsx"
		used := map[string]bool{}
		ast.Inspect(file, func(n ast.Node) bool {
			if id, ok := n.(*ast.Ident); ok {
				used[id.Name] = true
			}
			return true
		})
		for used[target] {
			target += "_"
		}
	}

	var edits []edit
	redirectedCount, remaining := 0, 0
	ast.Inspect(file, func(n ast.Node) bool {
		sel, ok := n.(*ast.SelectorExpr)
		if !ok {
			return true
		}
		id, ok := sel.X.(*ast.Ident)
		// id.Obj != nil: the parser resolved it to a declaration in this file
		// (a variable or parameter called "os"), i.e. not the package.
		if !ok || id.Name != osName || id.Obj != nil {
			return true
		}
		if redirected[sel.Sel.Name] {
			edits = append(edits, edit{off(id.Pos()), off(id.End()), target})
			redirectedCount++
		} else {
			remaining++
		}
		return true
	})
	if redirectedCount == 0 {
		out, err := format.Source(src)
		return out, 0, err
	}

	// import of fsx: a declaration of its own right after the package clause
	if fsxName == "" {
		imp := "import " + strconv.Quote(fsxImport)
		if target != "fsx" {
			imp = "import " + target + " " + strconv.Quote(fsxImport)
		}
		at := off(file.Name.End())
		edits = append(edits, edit{at, at, "\n\n" + imp + "\n"})
	}
	// drop the os import if nothing refers to it any more
	if remaining == 0 {
		if len(osDecl.Specs) == 1 {
			edits = append(edits, edit{off(osDecl.Pos()), off(osDecl.End()), ""})
		} else {
			edits = append(edits, edit{off(osSpec.Pos()), off(osSpec.End()), ""})
		}
	}

	sort.Slice(edits, func(i, j int) bool { return edits[i].start > edits[j].start })
	out := append([]byte(nil), src...)
	for _, e := range edits {
		out = append(out[:e.start], append([]byte(e.text), out[e.end:]...)...)
	}
	res, err := format.Source(out)
	if err != nil {
		return nil, 0, fmt.Errorf("formatting rewritten %s: %w", name, err)
	}
	// the result must still parse
	if _, err := parser.ParseFile(token.NewFileSet(), name, res, parser.ParseComments); err != nil {
		return nil, 0, fmt.Errorf("rewritten %s does not parse: %w", name, err)
	}
	return res, redirectedCount, nil
}
